#!/venv/bin/python
"""Regenerates MANIFEST.json from the table below (maintenance helper, not a check)."""
import json

PY = "/venv/bin/python"
TRUST = ("Trusted: CPython ast parses what the interpreter would run; documented behaviour of the library vocabulary frozen in sa/lib.py; the analyser itself "
         "(guarded by vacuity floors; by the thorough tier's self-test: 482 variants incl. 95 independently seeded property-breaking changes that must be reported (2 of them, unknown arithmetic / text forms, as exit 2) and 95 independent refactorings that must not be reported (5 end in exit 2 for their own property); "
         "and by two false-alarm fuzzers over the current tree). A value the analyser has no model for never yields a VIOLATION: the run ends UNDECIDED (exit 2).")

CHECKS = {
 "C01": ("proof", "abstract interpretation of every API operation to symbolic wire frames; who-may-call sweep on the stream writer",
         "Proof over all argument values, ids, keys, sessions and clock readings under assumptions A1-A5: every value reaching writer.write is unhexlify(sign(p)), the signature covers all preceding bytes, fef0/f0fe sit at fixed offsets, and bytes 2-3 denote LE16 of the symbolic frame length. The numeric CRC is not evaluated (C04 proves the signer's normal form).", "§4 C01"),
 "C04": ("proof", "normal-form derivation of the signer by abstract interpretation, syntactic comparison with the protocol term",
         "Proof by normal form: the signer's abstract result equals p ++ LE16(crc_hqx(p,0x1021)) ++ LE16(crc_hqx(LE16bytes ++ 0x30*32,0x1021)) for a symbolic p; invalid hex provably raises before any output. crc_hqx itself is trusted.", "§4 C04"),

 "C02": ("translation_validation", "symbolic frames from abstract interpretation compared with a reference byte layout; role/provenance check per hole; who-may-store sweep",
         "Translation validation: for every operation the symbolic command frame (all argument values at once) is compared byte-for-byte with spec/wire_frames.json, every hole is traced to the same-named argument through its encoder's normal form and guard (timer 60*minutes LE32, auto-off [3600,86340], name UTF-8 padded to 32, position two hex digits, day mask, start/end), rejections are shown to raise before the command frame is written. Float arithmetic inside timedelta handling and the op-code values themselves (no independent oracle) are not decided.", "§4 C02"),
 "C03": ("proof", "path enumeration of every operation's I/O event trace by abstract interpretation; provenance of session/timestamp holes; write-effect sweep for shared state",
         "Proof over all control-flow paths of the 12 operations (helpers inlined): login frame first and exactly once, request/response alternation, session = bytes 8..12 of this invocation's login reply, timestamp = this invocation's single clock occurrence, login flavour per protocol type, fixed frame sequences (2 frames; 2..4 for thermostat control). Absence of any state shared between operations or instances is shown by an exhaustive write-effect sweep (attribute stores, globals, caches, mutable defaults). Two coroutines on one instance and device-side pairing are not decided.", "§4 C03"),
 "C12": ("proof", "enum-table folding plus normal forms of encoder/decoder by abstract interpretation (decoder: all 128 guarded paths)",
         "Proof, exhaustive over the finite tables: the Days table is folded from the source (bits are distinct powers of two, Monday 0x02..Sunday 0x80); the encoder's normal form for each accepted input form is '{:02x}' of the bit sum with empty/duplicate inputs raising ValueError; the decoder's 128 guarded paths return exactly the days whose bit is set and masks outside [2,254] raise. A one-line lemma on powers of two closes the bijection.", "§4 C12"),
 "C14": ("proof", "normal form of calc_duration by abstract interpretation, compared with the two accepted spec forms",
         "Proof by normal form over all pairs: both times are parsed by the same constant '%H:%M', the result is str(E-S) exactly when E>=S and str((E+1 day)-S) exactly when E<S (strict), or the modular form; the values are touched by one comparison and one subtraction only, so the three-way case split is the complete argument.", "§4 C14"),
 "C19": ("proof", "constant/enum/dataclass table folding; abstract interpretation of the 36 (type, class) constructor pairs and of the API constructors",
         "Proof, exhaustive over finite tables folded from the source: unique 2-byte model codes, protocol type and category per device type; each device class accepts exactly the types of its category (all 36 pairs decided by interpreting __post_init__ with the concrete member); both port tables cover every category, agree with the category's protocol type and with the ports of the property statement; API classes default to their protocol's TCP port.", "§4 C19"),
 "C05": ("translation_validation", "extraction terms of every datagram getter by abstract interpretation vs a reference byte layout; constructor wiring per device type; disjoint-range rule",
         "Translation validation over all datagram contents: each of the 20 getters denotes a closed-form extraction term (offset, width, byte order, decoder) that must equal spec/broadcast_layout.json; for each of the 9 device types the delivered object's fields are traced to the getter of the same role, the class to the type's category, one callback per datagram, OFF normalisation by guard; fields of one device read disjoint wire ranges (independent of the table). inet_ntoa / utf-8 / isoformat / round are trusted.", "§4 C05"),
 "C06": ("proof", "normal form of the gate predicate; path/event analysis of the device builder incl. a frame whose model bytes are a literal outside the enum table",
         "Proof: the gate's normal form is exactly magic fef0 AND length in {165,168,159} and cannot raise; on the gate-false path the only effect is a debug log; no raising construct is evaluated before the gate; a gate-passing frame with a model code outside DeviceType reaches exactly one 'unknown' warning, no device and no exception.", "§4 C06"),
 "C08": ("translation_validation", "extraction terms of every reply getter vs a reference layout; field<-getter wiring of the response dataclasses; sibling-offset agreement with the broadcast parser",
         "Translation validation over all reply contents: the 14 StateMessageParser getters and the login session denote extraction terms equal to spec/reply_layout.json; each response field is assigned the getter of its role; independently of the tables, every field shared with the broadcast parser is read the same way a constant 58/59 bytes apart. Library decoders and float formatting are trusted.", "§4 C08"),
 "C09": ("proof", "exception-escape analysis on the abstract interpreter's guarded raise paths (library may-raise table + try/except filtering along inlined calls); guard/typestate check of login success before later writes",
         "Proof over arbitrary reply bytes (the replies are unconstrained symbols): every raising path of the three state queries ends in RuntimeError, every normal return is the response parsed from the last reply, 'successful' is exactly non-None and non-empty, and with an empty login reply the six guarded operations raise RuntimeError having written only the login frame. Exceptions of the asyncio streams themselves are outside the property.", "§4 C09"),
 "C10": ("translation_validation", "abstract interpretation of the list parser with symbolic records (loop unrolled 0/1/2), reference record layout, writer/reader offset and encoder-pair agreement",
         "Translation validation: records are exactly the 16-byte chunks of reply bytes 45..len-4 (empty reply => empty set, no raise); every field of the k-th schedule denotes the reference extraction term of record k (id, recurrence, days via the C12 decoder, local HH:MM of LE32 start/end, duration and display wiring); identity is the slot id; the record create_schedule emits places days/start/end at the reader's offsets and widths with the inverse encoder (LE32, mktime vs localtime, '%H:%M', '00' for non-recurring). The zone/DST behaviour of mktime/localtime is not decided.", "§4 C10"),
 "C11": ("other", "normal forms of the clock encoder/decoder by abstract interpretation; clock-domain (LOCAL/UTC) tagging of library calls; format-directive agreement; whole-input validation rule",
         "Structural necessary conditions only: encoder = hex(LE32(int(mktime(strptime(today-local ++ HH:MM, same date directives ++ ' %H:%M'))))), decoder = strftime('%H:%M', localtime(LE32)), same width/byte order/format, inverse pair in the LOCAL domain with no UTC-domain API, malformed strings (incl. trailing components) raise. That localtime(mktime(t)) == t in every zone and on DST days is libc/tzdata behaviour and is NOT decided.", "§4 C11"),
 "C07": ("other", "path/event analysis of datagram_received and the device builder; write-effect analysis (stores only on fresh objects); who-may-call sweep for transport close/abort; per-port protocol construction in start()",
         "Structural necessary conditions only: exactly one synchronous hand-off per datagram and at most one callback per datagram; nothing on the receive path stores to anything that outlives the call (no dedupe, no poisoned flag); no transport close/abort/stop reachable from the receive callbacks and no handler around the hand-off; one protocol+transport per port bound to the user callback. Arrival order per port, independence across ports and exception isolation are properties of the kernel and the asyncio loop and are NOT decided.", "§4 C07"),
 "C17": ("other", "path/event analysis of start/stop/__aenter__/__aexit__ with the port loop unrolled over symbolic ports; acquire/rollback pairing on exceptional exits; flag-writer sweep",
         "Structural necessary conditions on all paths (0,1,2+ ports): every created endpoint is registered under its port and bound to it; stop looks up and closes every registered open transport and cannot raise; the running flag has exactly three writers, set last in start and never on a raising exit, cleared last in stop; a failing bind releases the transports acquired earlier; the context manager pairs start/stop and does not swallow exceptions. Socket release timing and callback quiescence after close() are asyncio behaviour (trusted).", "§4 C17"),
 "C18": ("other", "path/event analysis of connect/disconnect/__aenter__/__aexit__ on fresh and connected instances; flag-writer sweep",
         "Structural necessary conditions on all paths: the connected flag is written only by __init__/connect/disconnect; connect sets it after the awaited open_connection returned and both streams are stored, never on the refused path; disconnect closes then awaits wait_closed before clearing it and touches nothing before any connect; context exit always disconnects and returns falsy; connect does not depend on earlier state (reconnectable). EOF at the peer and idempotence of close() are asyncio behaviour (trusted).", "§4 C18"),
 "C13": ("proof", "normal forms of every answer of pretty_next_run by abstract interpretation (guards, provenance of the chosen/named day, sort/filter shape) compared with the accepted forms, plus a stated weekday lemma; clock-domain tagging of the clock reads",
         "Proof by normal form plus a stated arithmetic lemma on weekdays 0..6 (no case of weekday/day set/time order is evaluated): 'now' is a LOCAL clock read; no days => 'today'; 'today' exactly under (today selected and now < start); otherwise the selected weekdays are sorted ascending and the first one strictly after today is chosen, else the first selected weekday (=> nearest future occurrence, a full week ahead when only today is selected); 'tomorrow' exactly when the chosen day is today+1 (Sunday->Monday included), else 'next <Days.value of the chosen selected day>'; every answer is one of three templates with the unmodified start time. strptime/strftime and the host clock are trusted.", "§4 C13"),
 "C15": ("other", "path-sensitive typestate on the key list of build_command (case split over enum members, symbolic temperature/fan/IR map): order of guarded map lookups per path; normal forms of payload and length; table inverses; AST shape rules for capabilities",
         "Structural clauses decided on all ~8000 guarded paths: key grammar and fallback order (swing dropped first, then fan, ...), membership test and final lookup on the same map, first hit used, clamping decided before the key is built, unsupported modes refused before any lookup, payload = 00000000 ++ hex(Para|HexCode) of the entry under the final key, length = LE16 of the payload size for every size (A5), inverse/total command tables, capability flags read from the set, remote cache keyed by the id. That the entry reached is the most specific PRESENT in a given IR set is a data-dependent search and is NOT decided beyond the loop's shape.", "§4 C15"),
 "C16": ("other", "path/event analysis of control_breeze_device for all given/omitted combinations of the enum settings: arguments reaching build_command and the status frame traced to requested value or to the same-role field of this call's state reply; guard analysis of the reply checks",
         "Structural clauses decided on every path (2^4 combinations x target given/omitted x update flag x remote kind x reply outcomes): each setting passed on is the requested value or the same-role field of the state just read, parameter binding of build_command and hole order of the status frame, separate-swing discipline (main command gets OFF, swing frame iff requested and not update-only, swing alone does not trigger the main command), update-only builds no IR code, every intermediate reply is checked before going on and nothing actionable raises. The content of the selected IR code is not decided.", "§4 C16"),
}
NOT_YET = {}

# rules added after the independent seeding rounds (DESIGN.md section 10), appended to the level text
ADDENDA = {
 "C01": " PREMISE-C04: the signer summary used for every frame is re-derived with C04's rules on the current tree; what C04 cannot discharge is inherited. R1.1 accepts tests of the writer and handing it to a helper whose parameter is only tested/closed. A1 (login reply >= 12 bytes) is an explicit premise of the runs.",
 "C03": " R3.6: every reader.read(n) asks for a constant n >= the longest reply of the protocol (reference data), so no reply tail is taken for the next login reply. PREMISE-C04 as in C01. R3.3 also reports a class-level container mutated through instances (state shared by all clients). R3.7: the configuration sweep (device id/key/ip/port stored once, unchanged, from the same-named parameter) is a rule of C03 too.",
 "C06": " R6.5: the builder keeps no memory between datagrams (no store outliving the call, no global, no mutated module-level container). R6.1 compares the gate strictly only when it is a boolean combination of tests of the length / the leading digits against constants; Enum(len(m)) under try/except and startswith(prefix) are canonicalised to those tests; any other conjunct -> exit 2.",
 "C09": " PREMISE-C04 as in C01. len() of a slice of a reply that may be shorter is conditional, so tests on a truncated login reply are reachable.",
 "C02": " PREMISE-C04 as in C01. The schedule start/end fields are additionally held to C11's encoder normal form (today's LOCAL date ++ HH:MM parsed with the same directives). R2.7: with days given as a sequence no command frame is written for a duplicate-bearing sequence and a refusal before the command frame exists (guards evaluated three-valued under the facts empty / duplicate).",
 "C05": " R5.7: on not-ON paths no guard (of a return or a raise) reads the bytes of the fields that are reported as zero in that state. R5.8: the trigger of every raising path reads only bytes of the delivered class's own fields.",
 "C07": " R7.5 (shared with C05 R5.7): a not-ON broadcast reaches the callback whatever the bytes of the normalised fields are. R7.6 (structural, conditional): a coroutine scheduled as a task that calls the builder / callback inside a loop must guard that call with try/except Exception inside the loop. The protocol factory is judged by what calling it produces. R7.7 (shared with C17 R17.7): start() on an instance with history still binds every port. R7.3: close()/abort() calls of the bridge module are reachable only from stop, and stop's interpreted paths close every registered transport (no name matching).",
 "C10": " R10.5 (structural): nothing on the listing path is memoised. The record loop is accepted as 32-nibble chunks or as area[off:off+32] over range(0, len(area), 32). R10.1 accepts the same chunks read from an in-memory stream / batched(); without a record loop it is undecided, not violated. R10.4 also requires that an empty day collection reaches the command frame with the non-recurring constant (guards evaluated under 'the collection is empty'). Regex findall of '.{1,32}' and bytes(islice(iter(hex), 32)) are the same chunking.",
 "C11": " R11.5 (structural): neither function is memoised.",
 "C12": " R12.5: encoder and decoder are not memoised and the decoder's result set is created inside the call. reduce(or_, bits, 0) over distinct powers of two from a duplicate-free collection and pack('B', x).hex() are canonicalised (lemma R12.4); 'guarded by' is decided by evaluating guards under the facts empty / duplicate.",
 "C13": " Three algorithms are recognised for the chosen day, each with a stated one-line lemma: sorted + first strictly later else first; forward walk (w+k)%7 for k=1..7; min by key (d-w-1)%7. R13.7 (structural): the days argument is not mutated in place.",
 "C14": " R14.2: the duration a schedule object reports is calc_duration of its own times and nothing on the way is memoised. Accepted forms: ite(E<S, E+1d, E)-S; (E-S)+1d under (E-S)<0; (E-S)%1d; minutes arithmetic (Em-Sm)%1440 rendered H:MM:00. A deviating part of a recognised form is a violation; a foreign arithmetic is answered 'cannot decide' (exit 2). R14.3 (interval analysis, necessary condition): a duration built from split/int parts has a minute count in [0,1440) - reported only when the bound is attained.",
 "C04": " x%256, x//256, x&255, x>>8 of a CRC and crc_hqx chained over pieces are canonicalised to the same term; arithmetic that does not normalise is answered 'cannot decide' (exit 2). A continued CRC whose carried value is written `crc or K` is reported (lemma: crc_hqx reaches 0 and is injective in its initial value). Byte shuffles written with integer arithmetic (<<, | of disjoint bit ranges, // and % of 256*hi+lo, '%04x') are canonicalised by exact identities on non-negative integers.",
 "C15": " R15.7 decides that min and max of the temperature range are updated independently for a numeric key[2:4]. R15.9 (structural): no table read by the remote's methods is a class-level container mutated through instances.",
 "C16": " PREMISE-C04 as in C01. R16.6: build_command/build_swing_command store nothing on the remote (no memory between calls). R16.3 also reports a swing command on a path that never tests update_state. PREMISE-C15: C15's rules are re-run and their violations inherited (the IR key is how the request reaches the wire).",
 "C19": " Class-level one-shot iterators consumed in __post_init__ guards are reported (engine hazard ONESHOT); the enum __init__ idiom is read like __new__. enum.Flag classes; descriptors in an enum body (property(attrgetter(...))) are accessors, not members.",
 "C17": " R17.6: endpoints are bound exclusively (no reuse_port/reuse_address/pre-bound socket), so binding an occupied port fails and a second start cannot orphan transports. R17.7: start() on an instance with history (unknown content of _transports) still binds every port unless the registered transport is known to be open. R17.2's port-loop clause is read from the interpreted paths. R17.8 (structural): no asyncio.gather without return_exceptions=True over coroutines that create datagram endpoints.",
}

def main():
    props = [json.loads(l) for l in open("properties.jsonl")]
    checks = []
    for p in props:
        pid = p["id"]
        if pid in CHECKS:
            level, tech, text, ref = CHECKS[pid]
            text = text + ADDENDA.get(pid, "")
            checks.append({
                "property_id": pid,
                "quick_cmd": f"{PY} -m sa.check {pid} --tier quick",
                "thorough_cmd": f"{PY} -m sa.check {pid} --tier thorough",
                "thorough_note": "quick tier + SELFTEST (every seeded variant registered for the property, on a scratch copy of the current tree) + FUZZ (havoc: 221 opaque-wrapping variants, rewrite: 329 semantics-preserving rewrites of the current tree; a VIOLATION on any is a checker defect -> exit 2) + mypy as recorded second witness",
                "evidence_file": f"/verif/evidence/{pid}.json",
                "replay_cmd_template": f"{PY} -m sa.check {pid} --explain {{path}}",
                "engine": "sa",
                "level_claimed": {"category": level, "text": text, "design_ref": ref},
                "level_note": TRUST,
                "technique": tech,
            })
    na = []
    for p in props:
        if p["id"] not in CHECKS:
            na.append({"property_id": p["id"], "reason": NOT_YET.get(p["id"], "checker not built yet in this round (see DESIGN.md section 4 for the planned static rules); nothing is claimed until the check exists")})
    man = {
        "version": 1,
        "setup_cmd": f"{PY} -m compileall -q sa",
        "hooks": {
            "guard": "AIOSWITCHER_VERIF",
            "enable": "no hooks: the analyser only parses /repo sources",
            "baseline_off_cmd": "cd /repo && /venv/bin/python -m pytest -ra -q -p no:cacheprovider --timeout=900 --continue-on-collection-errors",
            "source_commits": [],
            "add_only": True,
        },
        "engines": [{"name": "sa", "path": "/verif/sa", "serves_properties": sorted(CHECKS), "kind_free_text": "repository-specific static analyser: ast program model, hexshape abstract interpreter, effect/path rules"}],
        "checks": checks,
        "not_applicable": na,
        "notes": "Family: static analysis. exit 0 = all obligations discharged; exit 1 + VIOLATION line = a construct refutes a rule; exit 2 + ANALYSIS-ERROR = the analyser could not decide (never a VIOLATION).",
    }
    json.dump(man, open("MANIFEST.json", "w"), indent=1)
    print("checks:", [c["property_id"] for c in checks], "n/a:", len(na))

main()
