#!/venv/bin/python
"""Maintenance helper (not a check): run every quick check against every stored seed / refactoring and
regenerate sa/selftest/variants/seeded.json from what was observed.

usage: tools_seed_regress.py [--write] [--merge] [ID ...]
  --merge with IDs: only those stored changes are run, and their entries replace / extend seeded.json
  --props=C12,C18 : run only those checks over the chosen changes and compare with what seeded.json records
                    (nothing is written); for a change confined to one property's rules
Each stored change is applied to a scratch copy of /repo under a temporary directory (removed afterwards);
/repo itself is never touched.  Rules for the expectations written:
  seeds (seeded/Cxx, -rN)  : the property the change was seeded for MUST be reported (rc 1) - or, for the
                             one unknown-form seed, undecided (rc 2); other properties that report it are
                             recorded too (they are real consequences of the change, confirmed when stored)
  refactorings (-twin*)    : no property may report a violation; rc 2 is recorded as 'undecided'
The tool refuses to write when a seed is missed or a refactoring alarms.
"""
import json, os, shutil, subprocess, sys, tempfile
from concurrent.futures import ThreadPoolExecutor

sys.path.insert(0, os.path.dirname(os.path.abspath(__file__)))
from tools_seed_eval import copy_repo  # noqa: E402

HERE = os.path.dirname(os.path.abspath(__file__))
PROPS = [f"C{i:02d}" for i in range(1, 20)]
UNKNOWN_FORM_SEEDS = {"C02", "C14-r4", "C12-r6", "C04-r7", "C06-r7", "C09-r8", "C14-r8",
                      "C02-r9", "C04-r9", "C08-r9", "C09-r9", "C10-r9", "C19-r9"}  # float re-arrangement of the auto-off arithmetic; duration text via strftime().lstrip("0"); "bits strictly ascending"; CRC recovered with str.replace; gate by the declared length; round 9: unicodedata.normalize, str.casefold under a cache decorator, object.__setattr__ on a frozen dataclass, a reply-splitting loop, datetime.fromtimestamp(tz=...), a table built by a call that mutates its default: exit 2 by the unknown-form / unknown-library policy


ONLY = next((a.split("=", 1)[1].split(",") for a in sys.argv[1:] if a.startswith("--props=")), None)


def expected_rc(entry, prop):
    if (entry.get("expect_map") or {}).get(prop) == "undecided":
        return 2
    return 1 if entry["expect"] == "violation" and prop in entry["properties"] else 0


def compare_only(ids, results):
    cur = {e["id"]: e for e in json.load(open(os.path.join(HERE, "sa/selftest/variants/seeded.json")))}
    diff = 0
    for sid in ids:
        e, res = cur.get("seed-" + sid), results[sid]
        if e is None or res is None:
            print("NOT-RECORDED", sid)
            diff += 1
            continue
        for prop, rc in res.items():
            if rc == 2 and expected_rc(e, prop) == 0 and e["expect"] == "violation" and prop != json.load(open(os.path.join(HERE, "seeded", sid, "meta.json")))["property"]:
                continue        # (for a seed only the exit 2 of its OWN property is recorded; another property's exit 2 is not)
            if rc != expected_rc(e, prop):
                print("DIFF", sid, prop, "recorded", expected_rc(e, prop), "observed", rc)
                diff += 1
    print("compared", len(ids), "changes x", ONLY, "differences", diff)
    return 1 if diff else 0


def run_one(sid):
    d = os.path.join(HERE, "seeded", sid)
    root = tempfile.mkdtemp(prefix="seedreg_")
    try:
        copy_repo(root)
        p = subprocess.run(["git", "apply", "--whitespace=nowarn", os.path.join(d, "patch.diff")], cwd=root, capture_output=True, text=True)
        if p.returncode:
            p = subprocess.run(["patch", "-p1", "-s", "-i", os.path.join(d, "patch.diff")], cwd=root, capture_output=True, text=True)
            if p.returncode:
                return sid, None
        res = {}
        for prop in ONLY or PROPS:
            q = subprocess.run(["/venv/bin/python", "-m", "sa.check", prop], cwd=HERE, env={**os.environ, "SA_REPO": root, "SA_EVIDENCE_DIR": os.path.join(root, "_evidence")}, capture_output=True, text=True)
            res[prop] = q.returncode
        return sid, res
    finally:
        shutil.rmtree(root, ignore_errors=True)


def main():
    args = [a for a in sys.argv[1:] if not a.startswith("--")]
    write = "--write" in sys.argv
    ids = args or sorted(os.listdir(os.path.join(HERE, "seeded")))
    with ThreadPoolExecutor(max_workers=14) as ex:
        results = dict(ex.map(run_one, ids))
    if ONLY:
        return compare_only(ids, results)
    out, bad = [], []
    for sid in ids:
        res = results[sid]
        if res is None:
            bad.append((sid, "patch does not apply"))
            continue
        meta = json.load(open(os.path.join(HERE, "seeded", sid, "meta.json")))
        own = meta["property"]
        what = meta.get("change") or meta.get("what") or ""
        if isinstance(what, dict):
            what = json.dumps(what)
        nz = {p: rc for p, rc in res.items() if rc}
        if "twin" in sid:
            if any(rc == 1 for rc in nz.values()):
                bad.append((sid, f"refactoring alarms: {nz}"))
            e = {"id": f"seed-{sid}", "properties": PROPS, "expect": "pass", "what": "independent behaviour-preserving refactoring: " + what[:230], "patch": f"seeded/{sid}/patch.diff"}
            und = {p: "undecided" for p, rc in nz.items() if rc == 2}
            if und:
                e["expect_map"] = und
        else:
            want_own = 2 if sid in UNKNOWN_FORM_SEEDS else 1
            if res[own] != want_own:
                bad.append((sid, f"own property {own} rc={res[own]} (wanted {want_own}); all: {nz}"))
            props = [p for p, rc in res.items() if rc == 1]
            if own not in props:
                props.insert(0, own)
            e = {"id": f"seed-{sid}", "properties": sorted(props), "expect": "violation", "what": "independently seeded property-breaking change: " + what[:230], "patch": f"seeded/{sid}/patch.diff"}
            if res[own] == 2:
                e["expect_map"] = {own: "undecided"}
        out.append(e)
        print(sid, nz)
    for b in bad:
        print("BAD", *b)
    if write and not bad and not args:
        json.dump(out, open(os.path.join(HERE, "sa/selftest/variants/seeded.json"), "w"), indent=1)
        print("written", len(out))
    elif "--merge" in sys.argv and args and not bad:
        path = os.path.join(HERE, "sa/selftest/variants/seeded.json")
        cur = {e["id"]: e for e in json.load(open(path))}
        for e in out:
            cur[e["id"]] = e
        json.dump([cur[k] for k in sorted(cur, key=lambda i: i[len("seed-"):])], open(path, "w"), indent=1)
        print("merged", len(out), "total", len(cur))
    return 1 if bad else 0


if __name__ == "__main__":
    sys.exit(main())
